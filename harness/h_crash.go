//go:build verif

package main

// Mode crash (C04, C08): the real table state machine on Pebble's strict in-memory file system
// (file data durable up to the file's last sync, directory entries up to the directory's last
// sync).  A scenario (first open, apply batches, syncs, snapshot recoveries in both formats, clean
// close/reopen, snapshot saves) is first run once to record the file-system calls of every
// state-machine operation (normalised: the table directory, `current`, `current.updating`, DB
// directory creation, directory syncs; Pebble-internal files dropped) -- the model's protocol has to
// produce exactly these -- and then once per crash point: from that call on nothing becomes durable,
// the scenario runs on, all non-durable state is dropped, a fresh state machine opens the directory.
// What it reports (index, state hash, hash after re-applying the rest of the log) goes to the
// driver, which decides the property with the model.

import (
	"bytes"
	"fmt"
	"math/rand"
	"os"
	"path/filepath"
	"strings"
	"sync"

	"github.com/cockroachdb/pebble/vfs"
	"github.com/jamf/regatta/regattapb"
	"github.com/jamf/regatta/storage/table/fsm"
	sm "github.com/lni/dragonboat/v4/statemachine"
)

func init() {
	modes["crash"] = hCrash
}

const crashBase = "/data"

type crashCtl struct {
	mu      sync.Mutex
	n       int64
	crashAt int64
	mem     *vfs.MemFS
	record  bool
	log     []string // "<tick> <what>"
	syncs   []int64  // ticks that are syncs
	manis   []int64  // ticks that are syncs of a MANIFEST
}

func (c *crashCtl) tick(what string, isSync bool) {
	c.mu.Lock()
	defer c.mu.Unlock()
	c.n++
	if c.record {
		c.log = append(c.log, what)
	}
	if isSync {
		c.syncs = append(c.syncs, c.n)
		if strings.Contains(what, "MANIFEST") {
			c.manis = append(c.manis, c.n)
		}
	}
	if c.crashAt > 0 && c.n == c.crashAt {
		c.mem.SetIgnoreSyncs(true)
	}
}

func (c *crashCtl) now() int64 {
	c.mu.Lock()
	defer c.mu.Unlock()
	return c.n
}

type crashFS struct {
	vfs.FS
	c *crashCtl
}

type crashFile struct {
	vfs.File
	c    *crashCtl
	name string
}

func (f crashFile) Write(p []byte) (int, error) {
	f.c.tick("write "+f.name, false)
	return f.File.Write(p)
}
func (f crashFile) Sync() error { f.c.tick("sync "+f.name, true); return f.File.Sync() }

func (c crashFS) Create(name string) (vfs.File, error) {
	c.c.tick("create "+name, false)
	f, err := c.FS.Create(name)
	if err != nil {
		return nil, err
	}
	return crashFile{f, c.c, name}, nil
}
func (c crashFS) Link(o, n string) error { c.c.tick("link "+n, false); return c.FS.Link(o, n) }
func (c crashFS) OpenDir(name string) (vfs.File, error) {
	f, err := c.FS.OpenDir(name)
	if err != nil {
		return nil, err
	}
	return crashFile{f, c.c, "DIR:" + name}, nil
}
func (c crashFS) Open(name string, opts ...vfs.OpenOption) (vfs.File, error) {
	f, err := c.FS.Open(name, opts...)
	if err != nil {
		return nil, err
	}
	return crashFile{f, c.c, "DIR:" + name}, nil
}
func (c crashFS) Remove(name string) error { c.c.tick("remove "+name, false); return c.FS.Remove(name) }
func (c crashFS) RemoveAll(name string) error {
	c.c.tick("removeall "+name, false)
	return c.FS.RemoveAll(name)
}
func (c crashFS) Rename(o, n string) error {
	c.c.tick("rename "+o+" "+n, false)
	return c.FS.Rename(o, n)
}
func (c crashFS) ReuseForWrite(o, n string) (vfs.File, error) {
	c.c.tick("reuse "+n, false)
	f, err := c.FS.ReuseForWrite(o, n)
	if err != nil {
		return nil, err
	}
	return crashFile{f, c.c, n}, nil
}
func (c crashFS) MkdirAll(d string, p os.FileMode) error {
	c.c.tick("mkdirall "+d, false)
	return c.FS.MkdirAll(d, p)
}
func (c crashFS) List(d string) ([]string, error) {
	c.c.tick("list "+d, false)
	return c.FS.List(d)
}

// normalise maps the recorded calls of one state-machine operation to protocol tokens.
func normalise(calls []string, tdir string) string {
	var toks []string
	add := func(t string) {
		// repeated writes to one file and repeated syncs of ancestors count once
		// (so do immediately repeated syncs: they are idempotent)
		if len(toks) > 0 && toks[len(toks)-1] == t && (t == "writeUpd" || t == "syncAnc" || t == "syncDir" || t == "syncUpd") {
			return
		}
		toks = append(toks, t)
	}
	cur, upd := filepath.Join(tdir, "current"), filepath.Join(tdir, "current.updating")
	for _, c := range calls {
		f := strings.Fields(c)
		op, p := f[0], f[1]
		p = strings.TrimPrefix(p, "DIR:")
		rel, err := filepath.Rel(tdir, p)
		inside := err == nil && !strings.HasPrefix(rel, "..")
		switch {
		case !inside:
			// an ancestor of the table directory (or unrelated)
			if strings.HasPrefix(tdir, p) {
				if op == "sync" {
					add("syncAnc")
				}
			}
		case p == tdir:
			switch op {
			case "mkdirall":
				add("mkTableDir")
			case "sync":
				add("syncDir")
			case "list":
				add("removeOthers")
			default:
				add(op + "-T")
			}
		case p == upd:
			switch op {
			case "create":
				add("createUpd")
			case "write":
				add("writeUpd")
			case "sync":
				add("syncUpd")
			case "removeall", "remove":
				add("removeUpd")
			case "rename":
				if len(f) == 3 && f[2] == cur {
					add("renameUpd")
				} else {
					add("rename-upd-elsewhere")
				}
			default:
				add(op + "-upd")
			}
		case p == cur:
			add(op + "-current")
		case strings.HasPrefix(rel, "ingest-") || strings.HasPrefix(rel, "checkpoint"):
			// snapshot transport files; garbage as far as the protocol is concerned
		case !strings.Contains(rel, string(filepath.Separator)):
			// a DB directory itself
			switch op {
			case "mkdirall":
				add("mkdirDb")
			case "removeall":
				// part of the cleanup announced by `list`
			case "sync", "list":
				// Pebble syncing / listing its own directory
			default:
				add(op + "-db")
			}
		default:
			// inside a DB directory: Pebble's business
		}
	}
	return strings.Join(toks, " ")
}

type crashStep struct {
	kind string // open upd sync recover close save
	k    int    // upd: number of entries; recover: target position in the log
	fmt  fsm.SnapshotRecoveryType
	snap []byte
}

type crashScenario struct {
	srt   fsm.SnapshotRecoveryType
	log   []fsmEntry
	steps []crashStep
	tdir  string
}

type crashRun struct {
	ctl       *crashCtl
	traces    []string     // per step (record mode)
	again     map[int]bool // save steps that found the checkpoint parent directory in place
	syncs     [][2]uint64
	completed int
}

func newStrict() *vfs.MemFS {
	mem := vfs.NewStrictMem()
	must(mem.MkdirAll(crashBase, 0o755))
	for _, d := range []string{"/", crashBase} {
		df, err := mem.OpenDir(d)
		must(err)
		must(df.Sync())
		must(df.Close())
	}
	return mem
}

func entriesOf(es []fsmEntry) []sm.Entry {
	out := make([]sm.Entry, len(es))
	for i, e := range es {
		out[i] = sm.Entry{Index: e.index, Cmd: append([]byte{}, e.wire...)}
	}
	return out
}

// runScenario executes the steps on fs; errors and panics after the crash point end the run.
func (sc *crashScenario) run(mem *vfs.MemFS, ctl *crashCtl, steps []crashStep, pos int) (res crashRun) {
	res.ctl = ctl
	fs := crashFS{FS: mem, c: ctl}
	var f *fsm.FSM
	defer func() {
		_ = recover()
		if f != nil {
			func() {
				defer func() { _ = recover() }()
				_ = f.Close()
			}()
		}
	}()
	res.again = map[int]bool{}
	for si, st := range steps {
		from := len(ctl.log)
		switch st.kind {
		case "open":
			f = fsm.New("tab", crashBase, fs, nil, nil, sc.srt, func(uint64) {})(1, 1).(*fsm.FSM)
			if _, err := f.Open(nil); err != nil {
				f = nil
				return
			}
		case "upd":
			if _, err := f.Update(entriesOf(sc.log[pos : pos+st.k])); err != nil {
				return
			}
			pos += st.k
		case "sync":
			if err := f.Sync(); err != nil {
				return
			}
			idx := uint64(0)
			if pos > 0 {
				idx = sc.log[pos-1].index
			}
			res.syncs = append(res.syncs, [2]uint64{uint64(ctl.now()), idx})
		case "recover":
			if err := f.RecoverFromSnapshot(bytes.NewReader(st.snap), nil); err != nil {
				return
			}
			pos = st.k
		case "save":
			if _, err := mem.Stat(filepath.Join(sc.tdir, "checkpoint")); err == nil {
				res.again[si] = true
			}
			ctx, err := f.PrepareSnapshot()
			if err != nil {
				return
			}
			if err := f.SaveSnapshot(ctx, &bytes.Buffer{}, nil); err != nil {
				return
			}
		case "close":
			err := f.Close()
			f = nil
			if err != nil {
				return
			}
		}
		if ctl.record {
			ctl.mu.Lock()
			res.traces = append(res.traces, normalise(ctl.log[from:], sc.tdir))
			ctl.mu.Unlock()
		}
		res.completed++
	}
	if f != nil {
		_ = f.Close()
		f = nil
	}
	return
}

// observe reopens after a crash and reports "<idx> <hash> <hash after re-applying the rest>".
func (sc *crashScenario) observe(mem *vfs.MemFS) (ans string, f *fsm.FSM) {
	defer func() {
		if r := recover(); r != nil {
			ans = "open-panic"
			f = nil
		}
	}()
	f = fsm.New("tab", crashBase, mem, nil, nil, sc.srt, func(uint64) {})(1, 1).(*fsm.FSM)
	idx, err := f.Open(nil)
	if err != nil {
		return "open-error", nil
	}
	h1, err := f.GetHash()
	if err != nil {
		return "hash-error", f
	}
	var rest []fsmEntry
	for _, e := range sc.log {
		if e.index > idx {
			rest = append(rest, e)
		}
	}
	if len(rest) > 0 {
		if _, err := f.Update(entriesOf(rest)); err != nil {
			return "replay-error", f
		}
	}
	h2, err := f.GetHash()
	if err != nil {
		return "hash-error", f
	}
	return fmt.Sprintf("%d %d %d", idx, h1, h2), f
}

func donorSnapshot(log []fsmEntry, pos int, srt fsm.SnapshotRecoveryType) []byte {
	d := fsm.New("tab", "/donor", vfs.NewMem(), nil, nil, srt, func(uint64) {})(1, 1).(*fsm.FSM)
	_, err := d.Open(nil)
	must(err)
	defer d.Close()
	for _, e := range log[:pos] {
		_, err := d.Update(entriesOf([]fsmEntry{e}))
		must(err)
	}
	ctx, err := d.PrepareSnapshot()
	must(err)
	var buf bytes.Buffer
	must(d.SaveSnapshot(ctx, &buf, nil))
	return buf.Bytes()
}

func genCrashScenario(r *rand.Rand) *crashScenario {
	host, _ := os.Hostname()
	sc := &crashScenario{srt: fsm.SnapshotRecoveryType(r.Intn(2))}
	sc.tdir = filepath.Join(crashBase, host, "tab-1")
	g := newFsmGen(r)
	m := len(g.keys)
	idx, li := uint64(0), uint64(0)
	n := 10 + r.Intn(14)
	for i := 0; i < n; i++ {
		idx += 1 + uint64(r.Intn(2))
		c := g.cmd(m, 0)
		if r.Intn(3) == 0 {
			li += uint64(r.Intn(3))
			v := li
			c.LeaderIndex = &v
		}
		sc.log = append(sc.log, mkEntry(idx, c))
	}
	sc.steps = append(sc.steps, crashStep{kind: "open"})
	pos := 0
	for pos < n {
		switch r.Intn(9) {
		case 0, 1, 2, 3:
			k := 1 + r.Intn(4)
			if pos+k > n {
				k = n - pos
			}
			sc.steps = append(sc.steps, crashStep{kind: "upd", k: k})
			pos += k
		case 4, 5:
			sc.steps = append(sc.steps, crashStep{kind: "sync"})
		case 6:
			// a snapshot of a peer that is at or ahead of this replica
			p := pos + r.Intn(n-pos+1)
			ft := fsm.SnapshotRecoveryType(r.Intn(2))
			sc.steps = append(sc.steps, crashStep{kind: "recover", k: p, fmt: ft, snap: donorSnapshot(sc.log, p, ft)})
			pos = p
		case 7:
			sc.steps = append(sc.steps, crashStep{kind: "close"}, crashStep{kind: "open"})
		case 8:
			sc.steps = append(sc.steps, crashStep{kind: "save"})
		}
	}
	if r.Intn(2) == 0 {
		sc.steps = append(sc.steps, crashStep{kind: "sync"})
	}
	return sc
}

func renderLog(log []fsmEntry) string {
	var sb strings.Builder
	fmt.Fprintf(&sb, "clog %d", len(log))
	for _, e := range log {
		sb.WriteString(" " + e.render())
	}
	return sb.String()
}

func refHash(log []fsmEntry) uint64 {
	d := fsm.New("tab", "/ref", vfs.NewMem(), nil, nil, fsm.RecoveryTypeSnapshot, func(uint64) {})(1, 1).(*fsm.FSM)
	_, err := d.Open(nil)
	must(err)
	defer d.Close()
	for _, e := range log {
		_, err := d.Update(entriesOf([]fsmEntry{e}))
		must(err)
	}
	h, err := d.GetHash()
	must(err)
	return h
}

func lastSyncBefore(syncs [][2]uint64, k int64) uint64 {
	var ls uint64
	for _, s := range syncs {
		// the sync completed before the crash point
		if int64(s[0]) < k {
			ls = s[1]
		}
	}
	return ls
}

func hCrash(dir string) {
	out := NewOut(dir)
	defer out.Close()
	n := envInt("VERIF_N", 6)
	maxPoints := envInt("VERIF_POINTS", 60)
	second := envInt("VERIF_SECOND", 2)
	for h := 0; h < n; h++ {
		r := newRand(int64(7000 + h))
		sc := genCrashScenario(r)
		out.Line("reset", "ok")
		out.Line(renderLog(sc.log), fmt.Sprintf("ok %d", refHash(sc.log)))
		// recording run
		mem := newStrict()
		ctl := &crashCtl{mem: mem, record: true}
		rec := sc.run(mem, ctl, sc.steps, 0)
		if rec.completed != len(sc.steps) {
			out.Line("scenario-runs", "err incomplete")
			continue
		}
		firstOpen := true
		for i, st := range sc.steps {
			label := st.kind
			switch st.kind {
			case "open":
				if firstOpen {
					label = "open-new"
				} else {
					label = "open-rerun"
				}
				firstOpen = false
			case "recover":
				label = fmt.Sprintf("recover-%d", st.fmt)
			case "save":
				label = fmt.Sprintf("save-%d", sc.srt)
				if rec.again[i] {
					// Pebble syncs the table directory only when it has to create `checkpoint` in it
					label += "-again"
				}
			}
			out.Line("trace "+label, rec.traces[i])
			out.Count("trace_" + label)
		}
		// crash points: before anything, and right after every sync (the durable state only changes there)
		points := []int64{1}
		for _, t := range ctl.syncs {
			points = append(points, t+1)
		}
		out.Stats["crash_points_available"] += len(points)
		if len(points) > maxPoints {
			// keep the protocol-level syncs' neighbourhoods and a random sample of the rest
			r.Shuffle(len(points)-1, func(i, j int) { points[i+1], points[j+1] = points[j+1], points[i+1] })
			points = points[:maxPoints]
		}
		for _, k := range points {
			mem := newStrict()
			ctl := &crashCtl{mem: mem, crashAt: k}
			run := sc.run(mem, ctl, sc.steps, 0)
			mem.ResetToSyncedState()
			mem.SetIgnoreSyncs(false)
			ls := lastSyncBefore(run.syncs, k)
			obs, f := sc.observe(mem)
			out.Line(fmt.Sprintf("crash %d %d %s", k, ls, obs), "ok")
			out.Count("crash")
			if strings.HasPrefix(obs, "open-") {
				out.Count("crash_open_failed")
			}
			// a second crash, while running on after the first recovery: the replica (which has now
			// replayed the whole log) is closed, reopened, synced, receives a snapshot, syncs, closes --
			// once completely (so a sync at the end of the log has completed), then again with a crash
			if f != nil && second > 0 && r.Intn(3) == 0 {
				_ = f.Close()
				f = nil
				full := len(sc.log)
				ft := fsm.SnapshotRecoveryType(r.Intn(2))
				tail := []crashStep{{kind: "open"}, {kind: "sync"}, {kind: "recover", k: full, fmt: ft, snap: donorSnapshot(sc.log, full, ft)}, {kind: "sync"}, {kind: "close"}}
				ctl2 := &crashCtl{mem: mem}
				runT := sc.run(mem, ctl2, tail, full)
				if runT.completed == len(tail) && len(ctl2.syncs) > 0 {
					for j := 0; j < second; j++ {
						k2 := ctl2.syncs[r.Intn(len(ctl2.syncs))] + 1
						ctl3 := &crashCtl{mem: mem, crashAt: k2}
						sc.run(mem, ctl3, tail, full)
						mem.ResetToSyncedState()
						mem.SetIgnoreSyncs(false)
						obs2, f2 := sc.observe(mem)
						out.Line(fmt.Sprintf("crash %d %d %s", k2, sc.log[full-1].index, obs2), "ok")
						out.Count("crash_second")
						if f2 != nil {
							_ = f2.Close()
						}
					}
				}
			}
			if f != nil {
				_ = f.Close()
			}
		}
	}
	// memtable flushes Pebble performs on its own: a stream of apply batches mixing plain and
	// read-modify-write commands with large values; crash right after each MANIFEST sync
	if envInt("VERIF_AUTOFLUSH", 1) > 0 {
		out.Line("reset", "ok")
		sc := &crashScenario{srt: fsm.RecoveryTypeSnapshot}
		host, _ := os.Hostname()
		sc.tdir = filepath.Join(crashBase, host, "tab-1")
		r := newRand(7999)
		large := bytes.Repeat([]byte("L"), 100*1024)
		idx := uint64(0)
		sc.steps = append(sc.steps, crashStep{kind: "open"})
		for b := 0; b < 230; b++ {
			k := 2 + r.Intn(2)
			for i := 0; i < k; i++ {
				idx++
				c := &regattapb.Command{Table: []byte("tab"), Type: regattapb.Command_PUT, Kv: &regattapb.KeyValue{Key: []byte(fmt.Sprintf("k%05d", idx)), Value: []byte("s")}}
				if i == k-1 {
					c.Kv.Value = large
					c.PrevKvs = true
				}
				sc.log = append(sc.log, mkEntry(idx, c))
			}
			sc.steps = append(sc.steps, crashStep{kind: "upd", k: k})
		}
		out.Line(renderLog(sc.log), fmt.Sprintf("ok %d", refHash(sc.log)))
		mem := newStrict()
		ctl := &crashCtl{mem: mem}
		sc.run(mem, ctl, sc.steps, 0)
		points := ctl.manis
		out.Stats["autoflush_manifest_syncs"] += len(points)
		for _, t := range points {
			mem := newStrict()
			ctl := &crashCtl{mem: mem, crashAt: t + 1}
			run := sc.run(mem, ctl, sc.steps, 0)
			mem.ResetToSyncedState()
			mem.SetIgnoreSyncs(false)
			obs, f := sc.observe(mem)
			out.Line(fmt.Sprintf("crash %d %d %s", t+1, lastSyncBefore(run.syncs, t+1), obs), "ok")
			out.Count("crash_autoflush")
			if f != nil {
				_ = f.Close()
			}
		}
	}
}
