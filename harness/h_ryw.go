//go:build verif

package main

// Mode ryw (C11, C05 in situ): a real leader PROCESS and a real follower PROCESS (cmd/ wiring: the
// follower's forwarding KV server, its notification queue, the state machines' applied-index listener,
// the replication workers).  One client writes - half of the time THROUGH THE FOLLOWER - and after every
// write the follower acknowledged it reads on the follower with a default (local) read: the answer must
// contain the write, and since the client is the only writer it must be exactly the model's table after
// all acknowledged writes (read your writes).  Every so often the follower has to converge to the
// leader's content (C05).  Protocol lines as in mode e2e (driver mode fsm).
//
// A follower write answered DeadlineExceeded / Unavailable has an unknown outcome (known finding K5 is
// one way to get there): the table is abandoned, the run goes on with a fresh one; but if MOST follower
// writes end like that, no race explains it and the run reports it.

import (
	"context"
	"fmt"
	"strings"
	"time"

	"github.com/jamf/regatta/regattapb"
	"google.golang.org/grpc/codes"
	"google.golang.org/grpc/status"
)

func init() { modes["ryw"] = hRyw }

func hRyw(dir string) {
	out := NewOut(dir)
	defer out.Close()
	n := envInt("VERIF_N", 120)
	leader := startProc("leader")
	defer leader.stop()
	if !leader.waitReady(nil) {
		out.Line("start leader", "err not-ready "+strings.ReplaceAll(leader.logTail(), "\n", " | "))
		return
	}
	follower := startProc("follower", fmt.Sprintf("--replication.leader-address=http://127.0.0.1:%d", leader.repl),
		"--replication.poll-interval=50ms", "--replication.reconcile-interval=200ms", "--replication.lease-interval=1s")
	defer follower.stop()
	if !follower.waitReady(nil) {
		out.Line("start follower", "err not-ready "+strings.ReplaceAll(follower.logTail(), "\n", " | "))
		return
	}
	lkv, fkv := regattapb.NewKVClient(leader.conn), regattapb.NewKVClient(follower.conn)
	tc := regattapb.NewTablesClient(leader.conn)
	fWrites, fUnknown := 0, 0
	// writes through the RESTARTED follower on tables it had before the restart (its table manager starts
	// those again from its catalogue, not through the creation path)
	oldWrites, oldUnknown := 0, 0
	const oldTables = 6
	for i := 0; i < oldTables; i++ {
		ctx, cancel := ctxT()
		_, err := tc.Create(ctx, &regattapb.CreateTableRequest{Name: fmt.Sprintf("y%d", i)})
		cancel()
		if err != nil {
			out.Count("setup_create_failed")
		}
	}
	steps := n / 6
	if steps < 10 {
		steps = 10
	}
	if steps > 40 {
		steps = 40
	}
	restarted := false
	done := 0
	for sc := 0; done < n && sc < 8+n/20 && leader.alive() && follower.alive(); sc++ {
		if sc == 2 {
			// the follower node is restarted on its disks
			follower.halt()
			follower.launch()
			if !follower.waitReady(nil) {
				out.Line("restart follower", "err not-ready "+strings.ReplaceAll(follower.logTail(), "\n", " | "))
				return
			}
			fkv = regattapb.NewKVClient(follower.conn)
			restarted = true
			out.Count("follower_restart")
		}
		r := newRand(int64(9850 + sc))
		g := newFsmGen(r)
		m := len(g.keys)
		tname := []byte(fmt.Sprintf("y%d", sc))
		if sc >= oldTables {
			ctx, cancel := ctxT()
			_, err := tc.Create(ctx, &regattapb.CreateTableRequest{Name: string(tname)})
			cancel()
			if err != nil {
				out.Count("setup_create_failed")
				continue
			}
		}
		onOld := restarted && sc < oldTables
		// the table has to exist and have a leader on both sides before it is used
		ready := false
		for i := 0; i < 300 && !ready; i++ {
			ctx, cancel := ctxT()
			_, e1 := lkv.Range(ctx, &regattapb.RangeRequest{Table: tname, Key: []byte("x"), Linearizable: true})
			_, e2 := fkv.Range(ctx, &regattapb.RangeRequest{Table: tname, Key: []byte("x"), Linearizable: true})
			cancel()
			ready = e1 == nil && e2 == nil
			if !ready {
				time.Sleep(100 * time.Millisecond)
			}
		}
		if !ready {
			out.Count("setup_table_not_ready")
			continue
		}
		out.Line("reset", "ok")
		out.Line("new 0", "ok")
		out.Line("new 1", "ok")
		followerFull := func() string {
			ctx, cancel := ctxT()
			defer cancel()
			resp, err := fkv.Range(ctx, &regattapb.RangeRequest{Table: tname, Key: []byte{0}, RangeEnd: []byte{0}})
			if err != nil {
				return "err " + status.Code(err).String()
			}
			return "ok " + aRR(&regattapb.ResponseOp_Range{Kvs: resp.Kvs, More: resp.More, Count: resp.Count})
		}
		leaderFull := func() string {
			ctx, cancel := ctxT()
			defer cancel()
			resp, err := lkv.Range(ctx, &regattapb.RangeRequest{Table: tname, Key: []byte{0}, RangeEnd: []byte{0}, Linearizable: true})
			if err != nil {
				return "err " + status.Code(err).String()
			}
			return "ok " + aRR(&regattapb.ResponseOp_Range{Kvs: resp.Kvs, More: resp.More, Count: resp.Count})
		}
		full := fullRange()
		abandoned := false
		for step := 0; step < steps && done < n && !abandoned && leader.alive() && follower.alive(); step++ {
			c := g.cmd(m, 0)
			viaF := r.Intn(2) == 0
			kv := lkv
			if viaF {
				kv = fkv
			}
			var rev uint64
			var err error
			what, rendered := "", ""
			var cmd *regattapb.Command
			ctx, cancel := ctxT()
			if viaF {
				// a follower write that is never acknowledged (K5) is only answered by its deadline
				cancel()
				ctx, cancel = context.WithTimeout(context.Background(), 6*time.Second)
			}
			switch c.Type {
			case regattapb.Command_PUT:
				var resp *regattapb.PutResponse
				resp, err = kv.Put(ctx, &regattapb.PutRequest{Table: tname, Key: c.Kv.Key, Value: c.Kv.Value, PrevKv: c.PrevKvs})
				if err == nil {
					rev = resp.Header.Revision
					rendered = aResp(&regattapb.ResponseOp{Response: &regattapb.ResponseOp_ResponsePut{ResponsePut: &regattapb.ResponseOp_Put{PrevKv: resp.PrevKv}}})
				}
				what = "put"
				cmd = &regattapb.Command{Type: regattapb.Command_PUT, Kv: &regattapb.KeyValue{Key: c.Kv.Key, Value: c.Kv.Value}, PrevKvs: c.PrevKvs}
			case regattapb.Command_DELETE:
				var resp *regattapb.DeleteRangeResponse
				resp, err = kv.DeleteRange(ctx, &regattapb.DeleteRangeRequest{Table: tname, Key: c.Kv.Key, RangeEnd: c.RangeEnd, PrevKv: c.PrevKvs, Count: c.Count})
				if err == nil {
					rev = resp.Header.Revision
					rendered = aResp(&regattapb.ResponseOp{Response: &regattapb.ResponseOp_ResponseDeleteRange{ResponseDeleteRange: &regattapb.ResponseOp_DeleteRange{Deleted: resp.Deleted, PrevKvs: resp.PrevKvs}}})
				}
				what = "del"
				re := c.RangeEnd
				if len(re) == 0 {
					re = nil
				}
				cmd = &regattapb.Command{Type: regattapb.Command_DELETE, Kv: &regattapb.KeyValue{Key: c.Kv.Key}, PrevKvs: c.PrevKvs, RangeEnd: re, Count: c.Count}
			case regattapb.Command_TXN:
				rq := &regattapb.TxnRequest{Table: tname, Compare: c.Txn.Compare, Success: c.Txn.Success, Failure: c.Txn.Failure}
				if txnIsReadonly(rq) {
					cancel()
					continue
				}
				var resp *regattapb.TxnResponse
				resp, err = kv.Txn(ctx, rq)
				if err == nil {
					rev = resp.Header.Revision
					rendered = fmt.Sprintf("%s %s", b2i(resp.Succeeded), aResps(resp.Responses))
				}
				what = "txn"
				cmd = &regattapb.Command{Type: regattapb.Command_TXN, Txn: &regattapb.Txn{Compare: c.Txn.Compare, Success: c.Txn.Success, Failure: c.Txn.Failure}}
			default:
				cancel()
				continue
			}
			cancel()
			if viaF {
				fWrites++
				if onOld {
					oldWrites++
				}
			}
			if err != nil {
				switch status.Code(err) {
				case codes.InvalidArgument, codes.FailedPrecondition, codes.NotFound, codes.OutOfRange:
					out.Count("refused")
					if viaF {
						fWrites--
						if onOld {
							oldWrites--
						}
					}
					continue
				}
				// the outcome is not known: this table is not used any further
				out.Count("unknown_outcome_" + status.Code(err).String())
				if viaF {
					fUnknown++
					if onOld {
						oldUnknown++
					}
				}
				abandoned = true
				continue
			}
			e := mkEntry(rev, cmd)
			out.Line("apply 0 "+e.render(), "ok")
			out.Line("apply 1 "+e.render(), "ok")
			out.Line("acked "+what, fmt.Sprintf("rev %d %s", rev, rendered))
			done++
			if viaF {
				// read your write: a default read on the follower, right away
				q := g.rangeReq(m)
				if r.Intn(2) == 0 {
					q = full
				}
				wq := &regattapb.RequestOp_Range{Key: q.Key, RangeEnd: q.RangeEnd, Limit: q.Limit, KeysOnly: q.KeysOnly, CountOnly: q.CountOnly}
				if len(wq.RangeEnd) == 0 {
					wq.RangeEnd = nil
				}
				if len(wq.Key) == 0 {
					wq.Key = nil
				}
				ctx, cancel := ctxT()
				resp, err := fkv.Range(ctx, &regattapb.RangeRequest{Table: tname, Key: q.Key, RangeEnd: q.RangeEnd, Limit: q.Limit, KeysOnly: q.KeysOnly, CountOnly: q.CountOnly})
				cancel()
				if err == nil {
					out.Line(fmt.Sprintf("rread range 0 %s", rRange(wq)), "ok "+aRR(&regattapb.ResponseOp_Range{Kvs: resp.Kvs, More: resp.More, Count: resp.Count}))
					out.Count("read_your_write")
				} else {
					out.Count("ryw_read_refused")
				}
			} else if step%10 == 9 {
				// convergence: the follower reaches the leader's content
				want := leaderFull()
				got := ""
				for i := 0; i < 600; i++ {
					if got = followerFull(); got == want {
						break
					}
					time.Sleep(50 * time.Millisecond)
				}
				out.Line("rread range 0 "+rRange(&regattapb.RequestOp_Range{Key: []byte{0}, RangeEnd: []byte{0}}), got)
				out.Count("convergence")
			}
		}
	}
	ans := "ok"
	if (fWrites >= 4 && fUnknown == fWrites) || (fWrites >= 8 && fUnknown*2 > fWrites) {
		ans = fmt.Sprintf("MOSTLY-UNACKNOWLEDGED %d of %d", fUnknown, fWrites)
	}
	if oldWrites >= 3 && oldUnknown == oldWrites {
		ans = fmt.Sprintf("UNACKNOWLEDGED-AFTER-RESTART %d of %d", oldUnknown, oldWrites)
	}
	out.Stats["follower_writes_after_restart_on_old_tables"] += oldWrites
	out.Stats["follower_writes"] += fWrites
	out.Stats["follower_writes_unknown_outcome"] += fUnknown
	out.Line("headers", ans) // (the driver answers `ok` to this line)
	if leader.alive() && follower.alive() {
		out.Line("alive", "ok")
	} else {
		out.Line("alive", "DIED")
	}
}
