package main

import "github.com/lni/dragonboat/v4/logger"

// dragonboat logs through its own factory; the harness output must stay small.
type nopLogger struct{}

func (nopLogger) SetLevel(logger.LogLevel)        {}
func (nopLogger) Debugf(string, ...interface{})   {}
func (nopLogger) Infof(string, ...interface{})    {}
func (nopLogger) Warningf(string, ...interface{}) {}
func (nopLogger) Errorf(string, ...interface{})   {}
func (nopLogger) Panicf(format string, args ...interface{}) {
	panic("dragonboat: " + format)
}

func init() {
	logger.SetLoggerFactory(func(string) logger.ILogger { return nopLogger{} })
}
