package main

import (
	"bytes"
	"fmt"
	"math/rand"
	"strings"

	"github.com/cockroachdb/pebble/vfs"
	"github.com/jamf/regatta/regattapb"
	"github.com/jamf/regatta/storage/table/fsm"
	"github.com/jamf/regatta/util/iter"
	sm "github.com/lni/dragonboat/v4/statemachine"
)

func init() {
	modes["fsm"] = func(dir string) { hFsm(dir, "hist") }
	modes["fsm-twin"] = func(dir string) { hFsm(dir, "twin") }
	modes["fsm-size"] = func(dir string) { hFsm(dir, "size") }
}

// ---- rendering (the grammar of DESIGN.md Appendix C) ----

func rRange(q *regattapb.RequestOp_Range) string {
	return fmt.Sprintf("%s %s %d %s %s", hxn(q.Key), hx(q.RangeEnd), q.Limit, b2i(q.KeysOnly), b2i(q.CountOnly))
}

func rCompare(c *regattapb.Compare) string {
	res := fmt.Sprintf("%d", c.Result)
	t := "nov"
	if c.TargetUnion != nil {
		t = "v " + hxn(c.GetValue())
	}
	return fmt.Sprintf("%s %s %s %s", res, hxn(c.Key), hx(c.RangeEnd), t)
}

func rReqOp(o *regattapb.RequestOp) string {
	switch x := o.Request.(type) {
	case *regattapb.RequestOp_RequestRange:
		return "r " + rRange(x.RequestRange)
	case *regattapb.RequestOp_RequestPut:
		return fmt.Sprintf("p %s %s %s", hxn(x.RequestPut.Key), hxn(x.RequestPut.Value), b2i(x.RequestPut.PrevKv))
	case *regattapb.RequestOp_RequestDeleteRange:
		d := x.RequestDeleteRange
		return fmt.Sprintf("d %s %s %s %s", hxn(d.Key), hx(d.RangeEnd), b2i(d.PrevKv), b2i(d.Count))
	}
	return "none"
}

func rTxn(cmp []*regattapb.Compare, succ, fail []*regattapb.RequestOp) string {
	var sb strings.Builder
	fmt.Fprintf(&sb, "%d", len(cmp))
	for _, c := range cmp {
		sb.WriteString(" " + rCompare(c))
	}
	fmt.Fprintf(&sb, " %d", len(succ))
	for _, o := range succ {
		sb.WriteString(" " + rReqOp(o))
	}
	fmt.Fprintf(&sb, " %d", len(fail))
	for _, o := range fail {
		sb.WriteString(" " + rReqOp(o))
	}
	return sb.String()
}

func rCmd(c *regattapb.Command) string {
	switch c.Type {
	case regattapb.Command_PUT:
		return fmt.Sprintf("put %s %s %s", hxn(c.Kv.GetKey()), hxn(c.Kv.GetValue()), b2i(c.PrevKvs))
	case regattapb.Command_DELETE:
		return fmt.Sprintf("del %s %s %s %s", hxn(c.Kv.GetKey()), hx(c.RangeEnd), b2i(c.PrevKvs), b2i(c.Count))
	case regattapb.Command_PUT_BATCH:
		var sb strings.Builder
		fmt.Fprintf(&sb, "pbatch %d", len(c.Batch))
		for _, kv := range c.Batch {
			fmt.Fprintf(&sb, " %s %s", hxn(kv.GetKey()), hxn(kv.GetValue()))
		}
		return sb.String()
	case regattapb.Command_DELETE_BATCH:
		var sb strings.Builder
		fmt.Fprintf(&sb, "dbatch %d", len(c.Batch))
		for _, kv := range c.Batch {
			fmt.Fprintf(&sb, " %s", hxn(kv.GetKey()))
		}
		return sb.String()
	case regattapb.Command_TXN:
		return "txn " + rTxn(c.Txn.GetCompare(), c.Txn.GetSuccess(), c.Txn.GetFailure())
	case regattapb.Command_SEQUENCE:
		var sb strings.Builder
		fmt.Fprintf(&sb, "seq %d", len(c.Sequence))
		for _, s := range c.Sequence {
			sb.WriteString(" " + rCmd(s))
		}
		return sb.String()
	case regattapb.Command_DUMMY:
		return "dummy"
	}
	return "unknown"
}

func aKV(kv *regattapb.KeyValue) string { return hxn(kv.Key) + " " + hxv(kv.Value) }

func aKVs(kvs []*regattapb.KeyValue) string {
	var sb strings.Builder
	fmt.Fprintf(&sb, "%d", len(kvs))
	for _, kv := range kvs {
		sb.WriteString(" " + aKV(kv))
	}
	return sb.String()
}

func aRR(r *regattapb.ResponseOp_Range) string {
	return fmt.Sprintf("rr %s %d %s", b2i(r.More), r.Count, aKVs(r.Kvs))
}

func aResp(o *regattapb.ResponseOp) string {
	switch x := o.Response.(type) {
	case *regattapb.ResponseOp_ResponseRange:
		return aRR(x.ResponseRange)
	case *regattapb.ResponseOp_ResponsePut:
		if x.ResponsePut.PrevKv == nil {
			return "rp -"
		}
		return "rp " + aKV(x.ResponsePut.PrevKv)
	case *regattapb.ResponseOp_ResponseDeleteRange:
		return fmt.Sprintf("rd %d %s", x.ResponseDeleteRange.Deleted, aKVs(x.ResponseDeleteRange.PrevKvs))
	}
	return "r?"
}

func aResps(rs []*regattapb.ResponseOp) string {
	var sb strings.Builder
	fmt.Fprintf(&sb, "%d", len(rs))
	for _, r := range rs {
		sb.WriteString(" " + aResp(r))
	}
	return sb.String()
}

// ---- instances of the real state machine ----

type fsmInst struct {
	f      *fsm.FSM
	fs     vfs.FS
	srt    fsm.SnapshotRecoveryType
	notif  []uint64
	vis    []uint64 // local index visible to a reader at the moment of each notification
	closed bool
}

func newFsmInst(srt fsm.SnapshotRecoveryType) *fsmInst {
	in := &fsmInst{fs: vfs.NewMem(), srt: srt}
	in.open()
	return in
}

func (in *fsmInst) open() uint64 {
	var self *fsm.FSM
	self = fsm.New("tab", "/data", in.fs, nil, nil, in.srt, func(a uint64) {
		// a waiter released by this notification reads next: what does it see?
		v := uint64(0)
		if r, err := self.Lookup(fsm.LocalIndexRequest{}); err == nil {
			v = r.(*fsm.IndexResponse).Index
		}
		in.notif = append(in.notif, a)
		in.vis = append(in.vis, v)
	})(1, 1).(*fsm.FSM)
	in.f = self
	idx, err := in.f.Open(nil)
	must(err)
	in.closed = false
	return idx
}

func (in *fsmInst) takeNotif() string {
	var sb strings.Builder
	for i, n := range in.notif {
		if i > 0 {
			sb.WriteByte(',')
		}
		fmt.Fprintf(&sb, "%d@%d", n, in.vis[i])
	}
	in.notif, in.vis = nil, nil
	if sb.Len() == 0 {
		return "none"
	}
	return sb.String()
}

// guard turns a panic of the code under test into an outcome.
func guard(f func() string) (ans string) {
	defer func() {
		if r := recover(); r != nil {
			s := fmt.Sprint(r)
			switch {
			case strings.Contains(s, "closed"):
				ans = "panic closed"
			case strings.Contains(s, "nil pointer"):
				ans = "panic nil"
			default:
				ans = "panic other"
			}
		}
	}()
	return f()
}

type fsmEntry struct {
	index uint64
	cmd   *regattapb.Command // as generated
	wire  []byte
	seen  *regattapb.Command // as the state machine sees it (after the wire)
}

func mkEntry(index uint64, c *regattapb.Command) fsmEntry {
	b, err := c.MarshalVT()
	must(err)
	seen := &regattapb.Command{}
	must(seen.UnmarshalVT(b))
	return fsmEntry{index: index, cmd: c, wire: b, seen: seen}
}

func (e fsmEntry) render() string {
	li := "-"
	if e.seen.LeaderIndex != nil {
		li = fmt.Sprintf("%d", *e.seen.LeaderIndex)
	}
	return fmt.Sprintf("%d %s %s", e.index, li, rCmd(e.seen))
}

func (in *fsmInst) update(out *Out, id int, es []fsmEntry) { in.updateAs(out, "upd", id, es) }

func (in *fsmInst) updateAs(out *Out, verb string, id int, es []fsmEntry) {
	var sb strings.Builder
	fmt.Fprintf(&sb, "%s %d %d", verb, id, len(es))
	ents := make([]sm.Entry, len(es))
	for i, e := range es {
		sb.WriteString(" " + e.render())
		ents[i] = sm.Entry{Index: e.index, Cmd: append([]byte{}, e.wire...)}
	}
	ans := guard(func() string {
		res, err := in.f.Update(ents)
		if err != nil {
			return "err other"
		}
		var ab strings.Builder
		fmt.Fprintf(&ab, "%d", len(res))
		for _, r := range res {
			if r.Result.Data == nil {
				fmt.Fprintf(&ab, " %d -", r.Result.Value)
				continue
			}
			cr := &regattapb.CommandResult{}
			must(cr.UnmarshalVT(r.Result.Data))
			fmt.Fprintf(&ab, " %d %d %s", r.Result.Value, cr.Revision, aResps(cr.Responses))
		}
		n, v := in.notif, in.vis
		in.notif, in.vis = nil, nil
		if len(n) != 1 {
			return fmt.Sprintf("ok notified-%d-times %s", len(n), ab.String())
		}
		return fmt.Sprintf("ok %d@%d %s", n[0], v[0], ab.String())
	})
	out.Line(sb.String(), ans)
	out.Count("upd")
	out.Stats["entries"] += len(es)
}

func (in *fsmInst) look(out *Out, id int, q *regattapb.RequestOp_Range) {
	ans := guard(func() string {
		r, err := in.f.Lookup(q)
		if err != nil {
			return "err other"
		}
		rr := r.(*regattapb.ResponseOp_Range)
		if rr.More {
			out.Count("look_more")
		}
		return "ok " + aRR(rr)
	})
	out.Line(fmt.Sprintf("look %d %s", id, rRange(q)), ans)
	out.Count("look")
}

func (in *fsmInst) iterAll(out *Out, id int, q *regattapb.RequestOp_Range) {
	ans := guard(func() string {
		r, err := in.f.Lookup(fsm.IteratorRequest{RangeOp: q})
		if err != nil {
			return "err other"
		}
		seq := r.(iter.Seq[*regattapb.ResponseOp_Range])
		var sb strings.Builder
		n := 0
		seq(func(rr *regattapb.ResponseOp_Range) bool {
			sb.WriteString(" " + aRR(rr))
			n++
			return true
		})
		if n > 1 {
			out.Count("iter_multichunk")
		}
		return fmt.Sprintf("ok %d%s", n, sb.String())
	})
	out.Line(fmt.Sprintf("iter %d %s", id, rRange(q)), ans)
	out.Count("iter")
}

// park obtains a lazy range sequence without consuming it (regattaserver.IterateRange does that).
func (in *fsmInst) park(out *Out, id, slot int, q *regattapb.RequestOp_Range, parked map[int]iter.Seq[*regattapb.ResponseOp_Range]) {
	ans := guard(func() string {
		r, err := in.f.Lookup(fsm.IteratorRequest{RangeOp: q})
		if err != nil {
			return "err other"
		}
		parked[slot] = r.(iter.Seq[*regattapb.ResponseOp_Range])
		return "ok"
	})
	out.Line(fmt.Sprintf("iterh %d %d %s", id, slot, rRange(q)), ans)
	out.Count("iterh")
}

func consume(out *Out, slot int, parked map[int]iter.Seq[*regattapb.ResponseOp_Range]) {
	seq, ok := parked[slot]
	if !ok {
		return
	}
	delete(parked, slot)
	ans := guard(func() string {
		var sb strings.Builder
		n := 0
		seq(func(rr *regattapb.ResponseOp_Range) bool {
			sb.WriteString(" " + aRR(rr))
			n++
			return true
		})
		return fmt.Sprintf("ok %d%s", n, sb.String())
	})
	out.Line(fmt.Sprintf("cons %d", slot), ans)
	out.Count("cons")
}

func (in *fsmInst) ltxn(out *Out, id int, t *regattapb.TxnRequest) {
	ans := guard(func() string {
		r, err := in.f.Lookup(t)
		if err != nil {
			return "err other"
		}
		tr := r.(*regattapb.TxnResponse)
		return fmt.Sprintf("ok %s %s", b2i(tr.Succeeded), aResps(tr.Responses))
	})
	out.Line(fmt.Sprintf("ltxn %d %s", id, rTxn(t.Compare, t.Success, t.Failure)), ans)
	out.Count("ltxn")
}

func (in *fsmInst) indices(out *Out, id int) {
	r, err := in.f.Lookup(fsm.LocalIndexRequest{})
	must(err)
	out.Line(fmt.Sprintf("idx %d", id), fmt.Sprintf("ok %d", r.(*fsm.IndexResponse).Index))
	r, err = in.f.Lookup(fsm.LeaderIndexRequest{})
	must(err)
	out.Line(fmt.Sprintf("lidx %d", id), fmt.Sprintf("ok %d", r.(*fsm.IndexResponse).Index))
	h, err := in.f.GetHash()
	must(err)
	out.Line(fmt.Sprintf("hash %d", id), fmt.Sprintf("ok %d", h))
}

// ---- generators ----

type fsmGen struct {
	r    *rand.Rand
	keys [][]byte
	big  bool
}

func newFsmGen(r *rand.Rand) *fsmGen {
	g := &fsmGen{r: r}
	ff := func(n int) []byte { return bytes.Repeat([]byte{0xff}, n) }
	base := [][]byte{{0}, {0xff}, {0, 0}, {0x61}, {0x61, 0}, {0x61, 0xff}, {0x61, 0x62}, {0xff, 0xff}, {1}, {0x62}, {0x61, 0x61}, {0x60}}
	// a per-history subset so that collisions are frequent
	for _, i := range r.Perm(len(base))[:6+r.Intn(5)] {
		g.keys = append(g.keys, base[i])
	}
	if r.Intn(3) == 0 {
		g.keys = append(g.keys, ff(1019), ff(1020), ff(1024), append(ff(1018), 0xfe))
	}
	return g
}

func (g *fsmGen) key() []byte {
	if g.r.Intn(25) == 0 {
		b := make([]byte, 1+g.r.Intn(4))
		g.r.Read(b)
		return b
	}
	return append([]byte{}, g.keys[g.r.Intn(len(g.keys))]...)
}

func (g *fsmGen) val() []byte {
	switch g.r.Intn(8) {
	case 0:
		return nil
	case 1:
		return []byte{}
	case 2:
		return bytes.Repeat([]byte{byte(g.r.Intn(256))}, 65+g.r.Intn(200))
	case 3:
		return []byte{0}
	default:
		b := make([]byte, 1+g.r.Intn(3))
		for i := range b {
			b[i] = byte(0x30 + g.r.Intn(4))
		}
		return b
	}
}

// rangeEnd: nil (single key), a key, the wildcard, key+\0, empty-but-present, or an end below the start.
func (g *fsmGen) rangeEnd(k []byte, allowEmptyPresent bool) []byte {
	switch g.r.Intn(9) {
	case 0, 1:
		return nil
	case 2, 3:
		return []byte{0}
	case 4:
		return append(append([]byte{}, k...), 0)
	case 5:
		if allowEmptyPresent {
			return []byte{}
		}
		return []byte{0, 0}
	case 6:
		return []byte{0, 1}
	default:
		return g.key()
	}
}

func (g *fsmGen) rangeReq(m int) *regattapb.RequestOp_Range {
	k := g.key()
	q := &regattapb.RequestOp_Range{Key: k, RangeEnd: g.rangeEnd(k, true)}
	if g.r.Intn(3) == 0 {
		q.Key = []byte{0}
	}
	switch g.r.Intn(5) {
	case 0:
		q.KeysOnly = true
	case 1:
		q.CountOnly = true
	case 2:
		if g.r.Intn(4) == 0 {
			q.KeysOnly, q.CountOnly = true, true
		}
	}
	if g.r.Intn(2) == 0 {
		// limits around the number of matching pairs
		q.Limit = int64(g.r.Intn(m/2 + 2))
	}
	return q
}

func (g *fsmGen) compare() *regattapb.Compare {
	k := g.key()
	c := &regattapb.Compare{Key: k, Result: regattapb.Compare_CompareResult(g.r.Intn(4))}
	if g.r.Intn(3) == 0 {
		c.RangeEnd = g.rangeEnd(k, false)
	}
	if g.r.Intn(4) > 0 {
		c.TargetUnion = &regattapb.Compare_Value{Value: g.val()}
	}
	return c
}

func (g *fsmGen) reqOp(m int, readonly bool) *regattapb.RequestOp {
	n := g.r.Intn(3)
	if readonly {
		n = 0
	}
	switch n {
	case 0:
		return &regattapb.RequestOp{Request: &regattapb.RequestOp_RequestRange{RequestRange: g.rangeReq(m)}}
	case 1:
		return &regattapb.RequestOp{Request: &regattapb.RequestOp_RequestPut{RequestPut: &regattapb.RequestOp_Put{Key: g.key(), Value: g.val(), PrevKv: g.r.Intn(2) == 0}}}
	default:
		k := g.key()
		return &regattapb.RequestOp{Request: &regattapb.RequestOp_RequestDeleteRange{RequestDeleteRange: &regattapb.RequestOp_DeleteRange{Key: k, RangeEnd: g.rangeEnd(k, false), PrevKv: g.r.Intn(2) == 0, Count: g.r.Intn(2) == 0}}}
	}
}

func (g *fsmGen) txn(m int, readonly bool) *regattapb.Txn {
	t := &regattapb.Txn{}
	for i := g.r.Intn(3); i > 0; i-- {
		t.Compare = append(t.Compare, g.compare())
	}
	for i := g.r.Intn(4); i > 0; i-- {
		t.Success = append(t.Success, g.reqOp(m, readonly))
	}
	for i := g.r.Intn(4); i > 0; i-- {
		t.Failure = append(t.Failure, g.reqOp(m, readonly))
	}
	return t
}

func (g *fsmGen) cmd(m int, depth int) *regattapb.Command {
	c := &regattapb.Command{Table: []byte("tab")}
	n := g.r.Intn(20)
	switch {
	case n < 6:
		c.Type = regattapb.Command_PUT
		c.Kv = &regattapb.KeyValue{Key: g.key(), Value: g.val()}
		c.PrevKvs = g.r.Intn(2) == 0
	case n < 10:
		c.Type = regattapb.Command_DELETE
		k := g.key()
		c.Kv = &regattapb.KeyValue{Key: k}
		c.RangeEnd = g.rangeEnd(k, true)
		c.PrevKvs = g.r.Intn(2) == 0
		c.Count = g.r.Intn(2) == 0
	case n < 12:
		c.Type = regattapb.Command_PUT_BATCH
		for i := g.r.Intn(4); i > 0; i-- {
			c.Batch = append(c.Batch, &regattapb.KeyValue{Key: g.key(), Value: g.val()})
		}
	case n < 13:
		c.Type = regattapb.Command_DELETE_BATCH
		for i := g.r.Intn(4); i > 0; i-- {
			c.Batch = append(c.Batch, &regattapb.KeyValue{Key: g.key()})
		}
	case n < 17:
		c.Type = regattapb.Command_TXN
		c.Txn = g.txn(m, g.r.Intn(6) == 0)
	case n < 18:
		c.Type = regattapb.Command_DUMMY
	default:
		if depth >= 2 {
			c.Type = regattapb.Command_DUMMY
			break
		}
		c.Type = regattapb.Command_SEQUENCE
		for i := g.r.Intn(4); i > 0; i-- {
			s := g.cmd(m, depth+1)
			if g.r.Intn(3) == 0 {
				li := uint64(g.r.Intn(1000))
				s.LeaderIndex = &li // inner leader indices are ignored by the state machine
			}
			c.Sequence = append(c.Sequence, s)
		}
	}
	return c
}

// ---- scenarios ----

func hFsm(dir string, kind string) {
	out := NewOut(dir)
	defer out.Close()
	n := envInt("VERIF_N", 300)
	for h := 0; h < n; h++ {
		r := newRand(int64(1000 + h))
		out.Line("reset", "ok")
		switch kind {
		case "hist":
			fsmHistory(out, r)
		case "twin":
			fsmTwin(out, r)
		case "size":
			fsmSize(out, r)
		}
	}
	if kind == "size" {
		out.Line("reset", "ok")
		fsmSizeBoundary(out)
	}
	// generator self-checks: a degenerate distribution must not pass silently
	if kind == "hist" && n >= 100 {
		for _, k := range []string{"upd", "look", "iter", "ltxn", "look_more"} {
			if out.Stats[k] == 0 {
				out.Stats["selfcheck_missing_"+k] = 1
			}
		}
	}
}

func fullRange() *regattapb.RequestOp_Range {
	return &regattapb.RequestOp_Range{Key: []byte{0}, RangeEnd: []byte{0}}
}

// fsmHistory: one instance, random apply batches interleaved with reads of every shape.
func fsmHistory(out *Out, r *rand.Rand) {
	g := newFsmGen(r)
	in := newFsmInst(fsm.SnapshotRecoveryType(r.Intn(2)))
	defer in.f.Close()
	in.notif, in.vis = nil, nil
	out.Line("new 0", "ok")
	idx := uint64(0)
	li := uint64(0)
	m := len(g.keys)
	parked := map[int]iter.Seq[*regattapb.ResponseOp_Range]{}
	slot := 0
	for step := 0; step < 6+r.Intn(8); step++ {
		var es []fsmEntry
		for i := r.Intn(5); i >= 0; i-- {
			// Raft indices increase; not every index is an application entry
			idx += 1 + uint64(r.Intn(2))
			c := g.cmd(m, 0)
			if r.Intn(3) == 0 {
				// mostly increasing, sometimes lower or zero (a table reset proposes leader index 0)
				switch r.Intn(5) {
				case 0:
					li = uint64(r.Intn(int(li) + 1))
				case 1:
					li = 0
				default:
					li += uint64(r.Intn(3))
				}
				v := li
				c.LeaderIndex = &v
			}
			es = append(es, mkEntry(idx, c))
		}
		in.update(out, 0, es)
		for q := r.Intn(4); q > 0; q-- {
			switch r.Intn(8) {
			case 6: // a streamed read opened now and consumed later, after other requests (and writes)
				slot++
				in.park(out, 0, slot, g.rangeReq(m), parked)
			case 7:
				for s := range parked {
					if r.Intn(2) == 0 {
						consume(out, s, parked)
					}
					break
				}
			case 0, 1:
				in.look(out, 0, g.rangeReq(m))
			case 2:
				in.iterAll(out, 0, g.rangeReq(m))
			case 3:
				t := g.txn(m, true)
				in.ltxn(out, 0, &regattapb.TxnRequest{Compare: t.Compare, Success: t.Success, Failure: t.Failure})
			case 4:
				in.look(out, 0, fullRange())
			default:
				in.indices(out, 0)
			}
		}
	}
	for s := 1; s <= slot; s++ {
		consume(out, s, parked)
	}
	in.look(out, 0, fullRange())
	in.indices(out, 0)
}

// fsmTwin: the same log applied under three batchings (C03), with reopen and snapshot
// save/recover (both formats, cross-format) at random cut points; all instances are compared with
// the model, hence with each other.
func fsmTwin(out *Out, r *rand.Rand) {
	g := newFsmGen(r)
	m := len(g.keys)
	var log []fsmEntry
	idx, li := uint64(0), uint64(0)
	for i := 0; i < 8+r.Intn(20); i++ {
		idx += 1 + uint64(r.Intn(2))
		c := g.cmd(m, 0)
		if r.Intn(3) == 0 {
			switch r.Intn(5) {
			case 0:
				li = uint64(r.Intn(int(li) + 1))
			case 1:
				li = 0
			default:
				li += uint64(r.Intn(3))
			}
			v := li
			c.LeaderIndex = &v
		}
		log = append(log, mkEntry(idx, c))
	}
	ins := make([]*fsmInst, 3)
	for i := range ins {
		ins[i] = newFsmInst(fsm.SnapshotRecoveryType(r.Intn(2)))
		ins[i].notif, ins[i].vis = nil, nil
		out.Line(fmt.Sprintf("new %d", i), "ok")
	}
	defer func() {
		for _, in := range ins {
			in.f.Close()
		}
	}()
	// instance 0: all in one batch; 1: one entry per batch; 2: random cuts with reopen / snapshot transfer in between
	ins[0].update(out, 0, log)
	for _, e := range log {
		ins[1].update(out, 1, []fsmEntry{e})
	}
	for rest := log; len(rest) > 0; {
		k := 1 + r.Intn(len(rest))
		ins[2].update(out, 2, rest[:k])
		rest = rest[k:]
		switch r.Intn(4) {
		case 0: // clean close and reopen on the same file system
			must(ins[2].f.Close())
			ins[2].notif, ins[2].vis = nil, nil
			i := ins[2].open()
			out.Line("reopen 2", fmt.Sprintf("ok %d %s", i, ins[2].takeNotif()))
			out.Count("reopen")
		case 1: // snapshot taken here, transferred into a fresh instance (possibly of the other format), which takes over
			ctx, err := ins[2].f.PrepareSnapshot()
			must(err)
			var buf bytes.Buffer
			must(ins[2].f.SaveSnapshot(ctx, &buf, nil))
			ni := newFsmInst(fsm.SnapshotRecoveryType(r.Intn(2)))
			ni.notif, ni.vis = nil, nil
			must(ni.f.RecoverFromSnapshot(&buf, nil))
			ins[2].f.Close()
			ins[2] = ni
			out.Line("xfer 2 2", "ok")
			out.Count("xfer")
		}
	}
	for i, in := range ins {
		in.look(out, i, fullRange())
		in.indices(out, i)
	}
}

// fsmSize: values of 0.3-2 MiB so that the size limit of a range response cuts (C09, and the
// first-chunk behaviour of range deletes with prev_kv, known finding K2).
func fsmSize(out *Out, r *rand.Rand) {
	in := newFsmInst(fsm.SnapshotRecoveryType(r.Intn(2)))
	defer in.f.Close()
	in.notif, in.vis = nil, nil
	out.Line("new 0", "ok")
	idx := uint64(0)
	nk := 3 + r.Intn(6)
	var es []fsmEntry
	for i := 0; i < nk; i++ {
		idx++
		sz := 300_000 + r.Intn(1_800_000)
		if r.Intn(4) == 0 {
			sz = 2 * 1024 * 1024
		}
		if r.Intn(5) == 0 {
			sz = r.Intn(2000)
		}
		c := &regattapb.Command{Table: []byte("tab"), Type: regattapb.Command_PUT, Kv: &regattapb.KeyValue{Key: []byte{0x6b, byte(0x30 + i)}, Value: bytes.Repeat([]byte{byte(0x41 + i)}, sz)}}
		es = append(es, mkEntry(idx, c))
		if len(es) == 2 || i == nk-1 {
			in.update(out, 0, es)
			es = nil
		}
	}
	for _, q := range []*regattapb.RequestOp_Range{
		fullRange(),
		{Key: []byte{0}, RangeEnd: []byte{0}, KeysOnly: true},
		{Key: []byte{0}, RangeEnd: []byte{0}, CountOnly: true},
		{Key: []byte{0}, RangeEnd: []byte{0}, Limit: int64(nk - 1)},
		{Key: []byte{0}, RangeEnd: []byte{0}, Limit: int64(nk)},
		{Key: []byte{0x6b, 0x31}, RangeEnd: []byte{0x6b, byte(0x30 + nk - 1)}},
	} {
		in.look(out, 0, q)
		in.iterAll(out, 0, q)
	}
	in.indices(out, 0)
	// a range delete over everything that asks for the previous pairs (known finding K2: only the first
	// message's worth is reported when the range exceeds the message budget)
	idx++
	del := &regattapb.Command{Table: []byte("tab"), Type: regattapb.Command_DELETE, Kv: &regattapb.KeyValue{Key: []byte{0}}, RangeEnd: []byte{0}, PrevKvs: true, Count: r.Intn(2) == 0}
	in.updateAs(out, "kf K2 upd", 0, []fsmEntry{mkEntry(idx, del)})
	in.look(out, 0, fullRange())
	in.indices(out, 0)
}

// fsmSizeBoundary looks for a message that does not fit the transport: two values whose sizes add up to the
// chunk budget of the current source (VerifMaxRangeSize) minus 0 .. 48 bytes, read as one streamed range; every
// chunk, dressed as the RangeResponse the engine sends (pairs, more, count, a header with five full-width
// numbers), is measured with the codec's own size function and must stay within gRPC's 4 MiB message limit
// (theorem c09_chunk_size: at least 512 bytes below it).  When the theorem no longer holds for the current
// constants this sweep is what finds the concrete input.
func fsmSizeBoundary(out *Out) {
	in := newFsmInst(fsm.SnapshotRecoveryType(0))
	defer in.f.Close()
	in.notif, in.vis = nil, nil
	out.Line("new 0", "ok")
	budget := int(fsm.VerifMaxRangeSize)
	half := budget / 2
	idx := uint64(1)
	in.update(out, 0, []fsmEntry{mkEntry(idx, &regattapb.Command{Table: []byte("tab"), Type: regattapb.Command_PUT, Kv: &regattapb.KeyValue{Key: []byte("a"), Value: bytes.Repeat([]byte{0x41}, half)}})})
	const big = ^uint64(0)
	for d := 0; d <= 48; d++ {
		idx++
		in.update(out, 0, []fsmEntry{mkEntry(idx, &regattapb.Command{Table: []byte("tab"), Type: regattapb.Command_PUT, Kv: &regattapb.KeyValue{Key: []byte("b"), Value: bytes.Repeat([]byte{0x42}, budget-half-d)}})})
		ans := guard(func() string {
			r, err := in.f.Lookup(fsm.IteratorRequest{RangeOp: &regattapb.RequestOp_Range{Key: []byte("a"), RangeEnd: []byte("c")}})
			if err != nil {
				return "err other"
			}
			worst := 0
			r.(iter.Seq[*regattapb.ResponseOp_Range])(func(rr *regattapb.ResponseOp_Range) bool {
				m := &regattapb.RangeResponse{Header: &regattapb.ResponseHeader{ShardId: big, ReplicaId: big, Revision: big, RaftTerm: big, RaftLeaderId: big}, Kvs: rr.Kvs, More: rr.More, Count: rr.Count}
				if sz := m.SizeVT(); sz > worst {
					worst = sz
				}
				return true
			})
			if worst > 4*1024*1024 {
				return fmt.Sprintf("MESSAGE-TOO-BIG-FOR-THE-TRANSPORT %d bytes", worst)
			}
			return "ok"
		})
		out.Line(fmt.Sprintf("msgsize %d %d", half, budget-half-d), ans)
		out.Count("msgsize")
	}
}
