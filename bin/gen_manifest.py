#!/usr/bin/env python3
"""Regenerates MANIFEST.json from bin/props.py (run after changing the set of claimed checks)."""
import json, subprocess, sys, os
ROOT = os.path.dirname(os.path.dirname(os.path.abspath(__file__)))
sys.path.insert(0, os.path.join(ROOT, 'bin'))
from props import PROPS, NOT_YET
hooks = subprocess.run(['git', '-C', '/repo', 'log', '--format=%H', '--grep=^verif hooks'], capture_output=True, text=True).stdout.split()
m = {"version": 1, "setup_cmd": "bin/setup",
     "hooks": {"guard": "verif", "enable": "go build -tags verif (Go build tag; files */export_verif.go carry //go:build verif)",
               "baseline_off_cmd": "cd /repo && GOFLAGS=-mod=mod go test -json -vet=off -count=1 -timeout 25m ./...",
               "source_commits": hooks, "add_only": True},
     "engines": [{"name": "lean4-proof+correspondence", "path": "/verif/lean, /verif/harness, /verif/bin/check", "serves_properties": sorted(PROPS),
                  "kind_free_text": "Lean 4 theorems about an executable model (lake build + #print axioms audit on every run); the model is tied to /repo on every run by (a) constants and go/ast facts regenerated from the current source into Regatta/Extracted/*.lean, which the theorems import, and (b) a differential run of the real Go code (harness built from /repo with -tags verif) against the compiled Lean model (driver) on generated operation streams"}],
     "checks": [], "not_applicable": [], "notes": "see DESIGN.md; fixed defects and known findings in known_findings.json"}
for pid in sorted(PROPS):
    c = PROPS[pid]
    m["checks"].append({"property_id": pid, "quick_cmd": "bin/check %s --tier quick" % pid, "thorough_cmd": "bin/check %s --tier thorough" % pid,
                        "evidence_file": "/verif/evidence/%s.json" % pid, "replay_cmd_template": "bin/check %s --replay {path}" % pid,
                        "engine": "lean4-proof+correspondence",
                        "level_claimed": {"category": "proof", "text": c['level_text'], "design_ref": "DESIGN.md section 6, " + pid},
                        "level_note": c['level_note'],
                        "technique": c.get('technique', "Lean 4 machine-checked proof about an executable model + model/implementation correspondence check")})
for i in range(1, 20):
    pid = 'C%02d' % i
    if pid not in PROPS:
        m["not_applicable"].append({"property_id": pid, "reason": NOT_YET.get(pid, "not yet built in this snapshot of /verif (work in progress; designed in DESIGN.md section 6)")})
json.dump(m, open(os.path.join(ROOT, 'MANIFEST.json'), 'w'), indent=1)
print('claimed:', sorted(PROPS))
