"""Per-property configuration of bin/check."""

TRUSTED_BASE = [
    'Lean 4.33.0 kernel; axioms allowed: propext, Classical.choice, Quot.sound (audited by #print axioms on every property theorem)',
    'no sorry/admit/axiom/native_decide/bv_decide/implemented_by/unsafe in any Lean source (grep on every run)',
    'Lean compiler executing the model driver (same definitions the theorems are about)',
    'Go harness /verif/harness (calls the real code built from /repo with -tags verif), the constant/fact extractor, this runner and its canonicalisation',
]

PROPS = {
    'C12': {
        'level_text': 'Lean theorems for all byte strings of any length: DecodeBytes∘Encode round trip, injectivity, order preservation, every user key inside the wildcard range, bookkeeping keys outside every expressible range; stated over constants extracted from the current source. Model tied to the code by differential runs of key.Encoder/DecodeBytes/Decoder/iterOptionsForBounds/incrementRightmostByte.',
        'level_note': "Trusted: Lean kernel, extractor, harness; Pebble's bytewise comparer is assumed (exercised by C01).",
        'modules': ['Regatta.Props.C12'],
        'runs': [
            {'name': 'key', 'harness': 'key', 'driver': 'key', 'quick': {'VERIF_N': 6000}, 'thorough': {'VERIF_N': 400000}},
        ],
        'rule': 'random and edge keys (0x00/0xFF runs, prefixes, 1018..1024-byte keys) through key.Encoder, DecodeBytes, Decoder, iterOptionsForBounds, incrementRightmostByte and bytes.Compare of encoded keys',
        'assumptions': ['Pebble compares keys bytewise (DefaultComparer); checked indirectly by the C01 correspondence'],
        'trusted': ['modelled, not verified: nothing for the codec itself (pure functions, fully modelled)'],
    },
    'C19': {
        'level_text': 'Lean theorems: mergeShardInfo is idempotent, commutes and is permutation-invariant under the Raft consistency hypothesis (witnesses show the hypothesis is needed), keeps the max-term leader and max-cci membership, term monotone for all update sequences; lifted to the multi-shard view. Tied to the code by differential runs of mergeShardInfo, shardView.update and the Cluster/delegate handlers.',
        'level_note': 'Trusted: Lean kernel, harness; memberlist transport and dragonboat event delivery are outside the model.',
        'modules': ['Regatta.Props.C19'],
        'runs': [
            {'name': 'view', 'harness': 'view', 'driver': 'view', 'quick': {'VERIF_N': 1500}, 'thorough': {'VERIF_N': 60000}},
        ],
        'rule': 'random multisets of shard updates (terms, leaders incl. none, config-change indices, consistent and inconsistent) merged directly and delivered in 3 random orders with duplicates split over update calls',
        'assumptions': ['order independence needs the Raft guarantees "one leader per term" and "one membership per config-change index" (hypothesis Consistent); without them two explicit counterexamples are proved'],
        'trusted': ['modelled, not verified: memberlist gossip transport, dragonboat event delivery'],
    },
    'C01': {
        'level_text': "Refinement theorem in Lean (update_refines): for every well-formed store and every apply batch the transcription of FSM.Update (stored keys, bookkeeping records, lazily indexed batch, all seven command types incl. nested sequences and transactions) succeeds and yields exactly the results, user map, applied and leader index of a plain sorted map applying the entries one after another; reads of every shape refine the sorted map's reads; bookkeeping records untouched by any handler; lifted to all histories by induction. Model tied to the real FSM on Pebble by differential runs incl. GetHash of the raw store.",
        'level_note': 'Trusted: Lean kernel, harness. Pebble semantics assumed (sorted map, atomic indexed batches). Known finding K2 (range delete with prev_kv reports only the first 4 MiB message) is stated as a theorem about the first message and demonstrated by the size scenario.',
        'modules': ['Regatta.Props.C01'],
        'runs': [
            {'name': 'fsm', 'harness': 'fsm', 'driver': 'fsm', 'quick': {'VERIF_N': 400}, 'thorough': {'VERIF_N': 30000}},
            {'name': 'fsm-size', 'harness': 'fsm-size', 'driver': 'fsm', 'quick': {'VERIF_N': 6}, 'thorough': {'VERIF_N': 150}},
        ],
        'rule': 'random command histories (put, delete, range delete, batches, nested sequences, transactions; hostile keys 00/ff/prefixes/1019..1024-byte ff; all range shapes and flags) applied in random apply batches to the real FSM on Pebble(MemFS), interleaved with reads of every shape, index lookups and GetHash (raw store hash)',
        'assumptions': ['Pebble = sorted map with atomic (indexed) batches, bytewise comparer, exact-match prefix seek with Split=len', 'API layer lets only non-empty keys through (C16)', 'dragonboat never delivers an empty apply batch; indices < 2^64'],
        'trusted': ['modelled, not verified: Pebble, protobuf (un)marshalling of commands and results'],
    },
    'C02': {
        'level_text': 'Lean theorems: handleTxn refines if/then/else on the sorted map for every predicate list, both op lists and every prior batch state (c02_txn_refines); predicate semantics (missing key / empty range false, range = all, stored value on the left); read-only path agrees with the write path and leaves the map unchanged; atomic visibility as a corollary of the update refinement. Tied to the code by differential runs with generated transactions at all positions of an apply batch and through FSM.Lookup(*TxnRequest).',
        'level_note': 'Trusted: Lean kernel, harness; Pebble batch atomicity assumed.',
        'modules': ['Regatta.Props.C02'],
        'runs': [
            {'name': 'fsm', 'harness': 'fsm', 'driver': 'fsm', 'quick': {'VERIF_N': 400}, 'thorough': {'VERIF_N': 30000}},
        ],
        'rule': 'histories as for C01; transactions with 0-2 predicates (4 operators, with/without target, single key / range / wildcard), 0-3 operations per branch mixing range reads, puts, (range) deletes on overlapping keys, placed anywhere in an apply batch; read-only transactions through FSM.Lookup(*TxnRequest)',
        'assumptions': ['as C01; atomic visibility rests on Pebble batch commit atomicity'],
        'trusted': ['modelled, not verified: Pebble'],
    },
    'C03': {
        'level_text': 'Lean theorems (corollaries of the C01 refinement): applying a log cut into any consecutive non-empty apply batches gives the same content, indices and per-entry results as applying it at once; replicas with the same log prefix agree; the recorded leader index is a function of the log (D3 regression). Tied to the code by applying the same log to three real FSM instances under different batchings with reopen and cross-format snapshot transfer at cut points.',
        'level_note': 'Trusted: Lean kernel, harness; snapshot transfer is modelled as a copy of the store (tied by GetHash).',
        'modules': ['Regatta.Props.C03'],
        'runs': [
            {'name': 'fsm-twin', 'harness': 'fsm-twin', 'driver': 'fsm', 'quick': {'VERIF_N': 250}, 'thorough': {'VERIF_N': 20000}},
        ],
        'rule': 'the same generated log (entries with and without leader index, also decreasing/zero ones) applied to three real FSM instances: one batch, one entry per batch, random cuts with close/reopen and snapshot save/recover into a fresh instance (both formats, cross-format) at cut points; results, full range, both indices and GetHash of every instance compared with the model (hence with each other)',
        'assumptions': ['dragonboat delivers consecutive entries in order, each once per replica'],
        'trusted': ['modelled, not verified: Pebble; snapshot save/recover is modelled as a copy of the whole store (tied by the hash comparison)'],
    },
    'C09': {
        'level_text': "Lean theorems about the transcription of iterate's loop, for every pair list, limit, flag kind and position of size cuts: concatenated messages = the first `limit` pairs in order; all messages but the last flagged more; last flagged more iff pairs remain; counts; keys-only / count-only agree with the full read; unary read = first message. Tied to the code by differential runs incl. 0.3-2 MiB values that force size cuts (exact SizeVT arithmetic).",
        'level_note': "Trusted: Lean kernel, harness; point-in-time view of a Pebble iterator assumed. The bound 'each message below the transport limit' is tied by the size scenarios, not yet a theorem.",
        'modules': ['Regatta.Props.C09'],
        'runs': [
            {'name': 'fsm', 'harness': 'fsm', 'driver': 'fsm', 'quick': {'VERIF_N': 400}, 'thorough': {'VERIF_N': 30000}},
            {'name': 'fsm-size', 'harness': 'fsm-size', 'driver': 'fsm', 'quick': {'VERIF_N': 8}, 'thorough': {'VERIF_N': 200}},
        ],
        'rule': 'range reads (unary, streamed, streamed-and-parked) with limits around the number of matches, all flag variants, and size scenarios with values of 0.3-2 MiB so that the 4 MiB-1 KiB cut falls at varying positions (chunk count, flags, counts and value hashes compared)',
        'assumptions': ['one Pebble iterator = one point-in-time view'],
        'trusted': ['modelled, not verified: Pebble iterators; vtproto SizeVT arithmetic is transcribed and tied by the size scenarios'],
    },
    'C10': {
        'level_text': 'Lean theorems: every put/delete/transaction entry reports revision = its log index (also a transaction whose executed branch is empty, D4 regression), revisions strictly increase with indices, responses are those of the sorted map applying the writes in revision order. Tied to the code by differential runs of FSM.Update results.',
        'level_note': "Trusted: Lean kernel, harness. The read-path half (linearizable vs serializable reads under replica lag) is not yet covered by a theorem or run in this snapshot; it rests on dragonboat's ReadIndex.",
        'modules': ['Regatta.Props.C10'],
        'runs': [
            {'name': 'fsm', 'harness': 'fsm', 'driver': 'fsm', 'quick': {'VERIF_N': 300}, 'thorough': {'VERIF_N': 20000}},
        ],
        'rule': 'revisions of every command kind in random apply batches (incl. transactions whose executed branch is empty)',
        'assumptions': ['linearizable reads rest on dragonboat ReadIndex (SyncRead) correctness'],
        'trusted': ['modelled, not verified: dragonboat SyncRead/StaleRead'],
    },
    'C06': {
        'level_text': "Lean theorems: cache invariant (buffer = contiguous run of the log's own entries) preserved by every query for all cache sizes, size limits and query sequences (cachedQuery_exact: a ~150-line case analysis of get/put/makeRoomAndAppend/findIndex/fixSize); every non-error answer of both readers is a non-empty run starting at the requested index and not beyond applied (D7 regression); cached and uncached answers agree up to the size cut; classification (compacted -> use snapshot, applied+1 -> empty, beyond -> leader behind); the Replicate stream = exactly the requested range in non-empty batches followed by one final message, by induction on the loop. Tied to the code by differential runs of logreader.Simple, logreader.Cached (cache sizes 1..64, limits from 1 byte, delayed invalidation) and the real LogServer.Replicate over a stub log.",
        'level_note': "Trusted: Lean kernel, harness. Assumed about dragonboat: Entries(low,high,max) returns a non-empty prefix of the immutable history inside the log (EntriesSpec); GetRange is truthful. The classification theorem for the cached reader is for an invalidated (empty) cache; during the asynchronous invalidation window a compacted index may still be served from the cache (the entries are still the log's own: exactness holds).",
        'modules': ['Regatta.Props.C06'],
        'runs': [
            {'name': 'log', 'harness': 'log', 'driver': 'log', 'quick': {'VERIF_N': 2500}, 'thorough': {'VERIF_N': 250000}},
        ],
        'rule': 'random scripts (append/apply, compaction with and without cache invalidation, queries and whole Replicate loops with the range end always applied+1) against logreader.Simple, logreader.Cached and LogServer.Replicate over a stub log; entries of all four Raft types, command sizes 0..3000, size limits 1..6500',
        'assumptions': ['dragonboat Entries returns a non-empty prefix of the requested range inside the log; the history below the applied index is immutable (Raft)'],
        'trusted': ['modelled, not verified: dragonboat log reader (stub in the harness), gRPC stream'],
    },
    'C13': {
        'level_text': "Lean theorems about the transcription of LFSM.Update: compare-and-set law for set and delete on existing keys (mismatch reports the current pair and changes nothing), absent keys unchecked, every new version is the entry's log index and larger than every version handed out before (VersBelow invariant, lifted to whole histories), lookups reflect exactly the updates that passed the check, batching independence / determinism. Tied to the code by differential runs of the real LFSM: random set/delete/unknown-op sequences with stale/current/zero/future versions, two instances under different batchings, snapshot+restore into fresh, equal and lagging (diverged) instances, every lookup kind incl. glob and directory listings.",
        'level_note': "Trusted: Lean kernel, harness. JSON (de)serialisation of updates and of the snapshot is assumed to round-trip (the model restores a copy); path.Match is modelled for the pattern shapes the callers use (literal, literal prefix + '*'); list/listDir for clean absolute paths.",
        'modules': ['Regatta.Props.C13'],
        'runs': [{'name': 'meta', 'harness': 'meta', 'driver': 'meta', 'quick': {'VERIF_N': 150}, 'thorough': {'VERIF_N': 6000}}],
        'rule': 'random update sequences on the real kv.LFSM (3-4 instances: whole batch / entry by entry / lagging prefix / restored), versions stale, current, zero and future, snapshot restore into fresh, equal and diverged stores, all six lookup kinds on 10 keys and 6 patterns',
        'assumptions': ['encoding/json round-trips kv.Update, kv.Pair and the map snapshot', 'Raft delivers the same entries with the same increasing indices to every replica'],
        'trusted': ['modelled, not verified: encoding/json, path.Match outside the modelled pattern shapes'],
    },
    'C14': {
        'level_text': "Lean theorems for every interleaving of the store calls of any number of managers (System.run): the id sequence invariant (SeqInv, ~300 lines: key spaces disjoint for valid names, sequence never deleted, a pending sequence write can only succeed if the value it read is still current) giving: ids handed out are strictly increasing and beyond the reserved range, each id is greater than every id assigned before; a creation's record write succeeds iff no record of that name exists (decides races); deletion iff present; listing = stored records; diffTables = exactly (catalogued, not running, > 10000) / (running, not catalogued, > 10000). Tied to the code by differential runs of the real Manager (createTable, DeleteTable, LeaseTable, ReturnTable) of 3 nodes over the real LFSM under a seeded scheduler that interleaves at single-store-call granularity, hostile names in the pool (D10/D12 regression), and diffTables on random sets.",
        'level_note': "Trusted: Lean kernel, harness. Emptiness of a (re)created table and cross-table isolation follow from id freshness (data directory and shard id keyed by a never-used id) and are exercised end-to-end only through the engine-level runs of other checks, not proved here. Restore's id hand-out uses the same incAndGetIDSeq (modelled by the same call).",
        'modules': ['Regatta.Props.C14'],
        'runs': [{'name': 'catalog', 'harness': 'catalog', 'driver': 'catalog', 'quick': {'VERIF_N': 500}, 'thorough': {'VERIF_N': 30000}}],
        'rule': 'scenarios of 30-60 scheduler steps: up to 3 concurrent manager calls (create/delete/lease/return) of 3 nodes over one real LFSM, a seeded scheduler picks which parked store call proceeds; names a, b, sys, ab plus hostile ones (a/lease, sys/idseq, empty, 200/201 bytes, NUL, a[b, non-ASCII); catalogue listing and lease records compared after steps; diffTables on random catalogue/running sets',
        'assumptions': ['metadata store = C13 (CAS register map); StaleRead of the local replica is modelled as a read of the current state (single metadata replica in the harness)'],
        'trusted': ['modelled, not verified: dragonboat (shard start/stop driven by diffTables), JSON of table records'],
    },
    'C15': {
        'level_text': "Lean theorems for every interleaving, at the granularity of single store reads and writes, of lease / renew / return calls of any number of nodes with a shared non-decreasing clock (System.run with ticks): invariant LInv (a pending request's decision stays justified while the record it read is current); no stealing: a successful lease write only ever replaces an absent record, the caller's own, or an expired one; of racing requests the later write gets a version mismatch; a request reaches its write only if at its read the table was unclaimed / own / expired; return deletes only the caller's own record version. Tied to the code by the catalog correspondence run (real Manager.LeaseTable/ReturnTable of 3 nodes over the real LFSM, seeded store-call scheduler, long and already-expired durations) and by the meta run (the CAS law the argument rests on).",
        'level_note': "Trusted: Lean kernel, harness. One shared clock is assumed (time.Now skew between nodes is outside the model); durations in the runs are +1h / -1h so that real time passing during a run cannot change a decision.",
        'modules': ['Regatta.Props.C15'],
        'runs': [{'name': 'catalog', 'harness': 'catalog', 'driver': 'catalog', 'quick': {'VERIF_N': 500}, 'thorough': {'VERIF_N': 30000}},
                 {'name': 'meta', 'harness': 'meta', 'driver': 'meta', 'quick': {'VERIF_N': 60}, 'thorough': {'VERIF_N': 2000}}],
        'rule': 'as C14 (lease/return calls are ~50% of the generated calls, 1/3 with an already expired duration) plus the CAS law runs of C13',
        'assumptions': ['one shared non-decreasing clock', 'metadata store = C13'],
        'trusted': ['modelled, not verified: wall-clock time, JSON of lease records'],
    },
    'C11': {
        'level_text': "Lean theorems: the array heap of util/heap transcribed operation by operation — Push, Pop, New keep heap order and permute the slice, Pop removes exactly the root, the root is a minimum (sift-up / sift-down invariants by well-founded induction); on top of it the event loop of the notification queue: for every sequence of adds (any revisions, tables), notifications, cancellations / deadlines and sweeps the loop never blocks or panics, every queued waiter has an untouched channel, Len = unanswered waiters (QInv, c11_never_blocks); a notification answers exactly the waiters it removes, once each, touches no other channel and leaves only revisions above the notified one; the sweep answers every expired waiter once and keeps every live one (D5 regression); the apply side tells the listener exactly the committed leader index (D11 / C11-b). K5 (notification before the add) is proved as a witness. Tied to the code by real-time scripts against the real queue (half of the waiters through the real ForwardingKVServer.Put/DeleteRange/Txn), by comparing util/heap's backing slice after every operation, and by the fsm runs which record what a reader sees at each notification.",
        'level_note': "Trusted: Lean kernel, harness. Go channel semantics as modelled (capacity-1 buffer, close, blocking send); the one-second sweep runs in real time in the correspondence run (scripts whose timing slipped are discarded and re-run, never judged). Known finding K5: a waiter added after its notification is only answered at its deadline.",
        'modules': ['Regatta.Props.C11'],
        'runs': [{'name': 'queue', 'harness': 'queue', 'driver': 'queue', 'quick': {'VERIF_N': 300}, 'thorough': {'VERIF_N': 6000}, 'timeout': 3000},
                 {'name': 'heap', 'harness': 'heap', 'driver': 'heap', 'quick': {'VERIF_N': 2000}, 'thorough': {'VERIF_N': 100000}},
                 {'name': 'fsm', 'harness': 'fsm', 'driver': 'fsm', 'quick': {'VERIF_N': 150}, 'thorough': {'VERIF_N': 5000}},
                 {'name': 'fsm-twin', 'harness': 'fsm-twin', 'driver': 'fsm', 'quick': {'VERIF_N': 100}, 'thorough': {'VERIF_N': 3000}}],
        'rule': 'queue: 10-25 event scripts and dense scripts (6-14 waiters on one table in random revision order, 1-3 cancelled, sweeps and stepped notifications with every channel inspected in between) against the real queue in real time, 150 scripts concurrently, two final sweeps; heap: random Push/Pop/Remove/Fix/New sequences; fsm: notified value and the index visible to a reader at notification time for every Update / Open',
        'assumptions': ['Go channel and select semantics', 'every Add creates a fresh channel (waiter identity)'],
        'trusted': ['modelled, not verified: Go runtime scheduler, time.Ticker'],
    },
    'C18': {
        'level_text': "Lean theorems: varint round trip for every value; the length-prefixed command file reads back as the written sequence with the same boundaries for every message sequence (c18_frames); the chunk stream is the identity on the byte stream for every way of cutting it into reads, hence file -> chunk stream -> file preserves the command sequence (c18_chunks, c18_ship); Reader.Read; SnapshotChunk (the type the stream readers recycle) survives encode/decode and decoding into a ResetVT-recycled object equals decoding into a fresh one (with a witness that the reset is needed); generic field-sequence decoder law. The vtproto encoders of KeyValue, Compare, RequestOp, Txn, the recursive Command and SnapshotChunk are transcribed and tied to the registered codec byte for byte on random message trees (all oneof arms, absent vs present-empty optional fields, 1- and 2-byte lengths, 64-bit scalars); the real snapshot file / Writer / Reader are run on message sequences whose length prefixes straddle snappy block boundaries and on reads of random sizes.",
        'level_note': "Trusted: Lean kernel, harness. Not modelled: snappy/gzip/zstd (their round trips under 32 concurrent goroutines are tests in the correspondence run, labelled as such), protobuf decoding of the nested messages (checked against the real decoder by re-decoding every generated message into a fresh object, not proved), gRPC. Known finding K7 (latent): a Command recycled by ResetVT keeps a non-nil empty range_end, so decoding a message without range_end into it yields a present-but-empty one; no production path decodes into a pooled Command.",
        'modules': ['Regatta.Props.C18'],
        'runs': [{'name': 'wire', 'harness': 'wire', 'driver': 'wire', 'quick': {'VERIF_N': 4000}, 'thorough': {'VERIF_N': 150000}},
                 {'name': 'frames', 'harness': 'frames', 'driver': 'wire', 'quick': {'VERIF_N': 6, 'VERIF_COMPRESS_ITERS': 120}, 'thorough': {'VERIF_N': 60, 'VERIF_COMPRESS_ITERS': 2000}, 'timeout': 3000}],
        'rule': 'wire: random KeyValue / SnapshotChunk / Command trees (depth <= 2, every field independently present/absent/empty/long) through encoding.GetCodec("proto"): bytes compared with the Lean encoder, decoded into fresh and (SnapshotChunk) recycled objects; frames: 2k-22k messages of 1-280 bytes (length prefixes straddle 64 KiB snappy blocks) and few large ones written to a real snapshot file, read back, shipped through snapshot.Writer/Reader over reads of random sizes into a second file, read back; compressors: 32 goroutines x N round trips each for gzip, snappy, zstd',
        'assumptions': ['klauspost/compress snappy/gzip/zstd streams decode to what was encoded (tested, not proved)', 'gRPC delivers messages in order'],
        'trusted': ['modelled, not verified: compression libraries, generated vtproto decoders for nested messages'],
    },
}

NOT_YET = {}
