"""Per-property configuration of bin/check."""

TRUSTED_BASE = [
    'Lean 4.33.0 kernel; axioms allowed: propext, Classical.choice, Quot.sound (audited by #print axioms on every property theorem)',
    'no sorry/admit/axiom/native_decide/bv_decide/implemented_by/unsafe in any Lean source (grep on every run)',
    'Lean compiler executing the model driver (same definitions the theorems are about)',
    'Go harness /verif/harness (calls the real code built from /repo with -tags verif), the constant/fact extractor, this runner and its canonicalisation',
]

PROPS = {
    'C12': {
        'modules': ['Regatta.Props.C12'],
        'runs': [
            {'name': 'key', 'harness': 'key', 'driver': 'key', 'quick': {'VERIF_N': 6000}, 'thorough': {'VERIF_N': 400000}},
        ],
        'rule': 'random and edge keys (0x00/0xFF runs, prefixes, 1018..1024-byte keys) through key.Encoder, DecodeBytes, Decoder, iterOptionsForBounds, incrementRightmostByte and bytes.Compare of encoded keys',
        'assumptions': ['Pebble compares keys bytewise (DefaultComparer); checked indirectly by the C01 correspondence'],
        'trusted': ['modelled, not verified: nothing for the codec itself (pure functions, fully modelled)'],
    },
    'C19': {
        'modules': ['Regatta.Props.C19'],
        'runs': [
            {'name': 'view', 'harness': 'view', 'driver': 'view', 'quick': {'VERIF_N': 1500}, 'thorough': {'VERIF_N': 60000}},
        ],
        'rule': 'random multisets of shard updates (terms, leaders incl. none, config-change indices, consistent and inconsistent) merged directly and delivered in 3 random orders with duplicates split over update calls',
        'assumptions': ['order independence needs the Raft guarantees "one leader per term" and "one membership per config-change index" (hypothesis Consistent); without them two explicit counterexamples are proved'],
        'trusted': ['modelled, not verified: memberlist gossip transport, dragonboat event delivery'],
    },
}
